"""C14 — mark sets are canonical and respect exclusion/permission (model/mark.py, schema.py)."""
from __future__ import annotations

import itertools
import random

from common import Case, b, lst, nat, opt
from pm import SchemaInfo
from prosemirror.model import Mark, Schema

ID = "C14"
CORR_MODULE = "Corr.C14"
LEVEL = "proof"
SHARD = 250


def make_schema(mark_specs: dict, some_marks: str | None):
    nodes = {
        "doc": {"content": "block+"},
        "p_all": {"content": "inline*", "group": "block"},
        "p_none": {"content": "inline*", "group": "block", "marks": ""},
        "p_under": {"content": "inline*", "group": "block", "marks": "_"},
        "box": {"content": "block+", "group": "block"},
        "text": {"group": "inline"},
    }
    if some_marks is not None:
        nodes["p_some"] = {"content": "inline*", "group": "block", "marks": some_marks}
        nodes["box_some"] = {"content": "block+", "group": "block", "marks": some_marks}
    return Schema({"nodes": nodes, "marks": mark_specs})


def gen_mark_specs(rng: random.Random, k: int):
    names = [f"m{i}" for i in range(k)]
    groups = ["g1", "g2", "g", "fmt", "nofmt"]   # includes names that are substrings of each other
    specs = {}
    for n in names:
        sp = {}
        r = rng.random()
        if r < 0.25:
            pass
        elif r < 0.35:
            sp["excludes"] = ""
        elif r < 0.45:
            sp["excludes"] = "_"
        else:
            pool = names + groups
            sub = [x for x in pool if rng.random() < 0.4]
            sp["excludes"] = " ".join(sub)   # may be "" again
        if rng.random() < 0.4:
            sp["group"] = " ".join(rng.sample(groups, rng.randint(1, 3)))
        if rng.random() < 0.4:
            sp["attrs"] = {"v": {"default": 0}}
        if rng.random() < 0.3:
            sp["inclusive"] = False
        specs[n] = sp
    # group names used in excludes must exist on some mark, or Schema() raises; retry upstream
    return specs


def try_schema(rng, k):
    for _ in range(50):
        specs = gen_mark_specs(rng, k)
        names = list(specs)
        some = rng.choice([None, names[0], " ".join(rng.sample(names, rng.randint(1, len(names)))), "g1", "g1 " + names[-1], "g", "fmt", "fmt " + names[0]])
        try:
            return make_schema(specs, some), specs
        except SyntaxError:
            continue
    return make_schema({n: {} for n in [f"m{i}" for i in range(k)]}, None), {}


def rand_mark(rng, schema):
    name = rng.choice(list(schema.marks))
    t = schema.marks[name]
    if t.attrs:
        return t.create({"v": rng.randint(0, 2)})
    return t.create()


def ops_case(rng, schema, info, ops, kind):
    """ops: list of ('add', mark) | ('remove', mark) | ('rtype', marktype)"""
    cur = Mark.none
    obs = []
    terms = []
    d_ops = []
    for o in ops:
        if o[0] == "add":
            cur = o[1].add_to_set(cur)
            terms.append(f"SAdd {info.mark(o[1])}")
        elif o[0] == "remove":
            cur = o[1].remove_from_set(cur)
            terms.append(f"SRemove {info.mark(o[1])}")
        else:
            cur = o[1].remove_from_set(cur)
            terms.append(f"SRemoveType {info.mty(o[1])}")
        d_ops.append([o[0], o[1].to_json() if o[0] != "rtype" else o[1].name])
        obs.append(list(cur))
    term = f"COps @S@ {lst(terms)} {lst(info.marks(x) for x in obs)}"
    desc = {"kind": kind, "marks_spec": _spec_json(schema), "ops": d_ops,
            "obs": [[m.to_json() for m in x] for x in obs]}
    return Case(coq=term, desc=desc, schema=info.schema_term(),
                kind=kind, nontrivial=len(ops) >= 2)


def _spec_json(schema):
    return {"marks": {k: {kk: vv for kk, vv in v.spec.items()} for k, v in schema.marks.items()},
            "nodes": {k: {kk: vv for kk, vv in v.spec.items()} for k, v in schema.nodes.items()}}


def allowed_case(rng, schema, info, set_, kind):
    oa, ob = [], []
    for n in info.node_names:
        t = schema.nodes[n]
        oa.append(list(t.allowed_marks(set_)))
        ob.append(bool(t.allows_marks(set_)))
    term = f"CAllowed @S@ {info.marks(set_)} {lst(info.marks(x) for x in oa)} {lst(map(b, ob))}"
    desc = {"kind": kind, "marks_spec": _spec_json(schema), "set": [m.to_json() for m in set_],
            "allowed": [[m.to_json() for m in x] for x in oa], "allows": ob}
    return Case(coq=term, desc=desc, schema=info.schema_term(),
                kind=kind, nontrivial=len(set_) >= 1)


def query_case(rng, schema, info, a, bset, m, kind):
    same = Mark.same_set(a, bset)
    isin = m.is_in_set(a)
    tin = m.type.is_in_set(a)
    sf = Mark.set_from(list(a))
    term = (f"CQuery @S@ {info.marks(a)} {info.marks(bset)} {info.mark(m)} {b(same)} {b(isin)} "
            f"{opt(tin, info.mark)} {info.marks(sf)}")
    desc = {"kind": kind, "marks_spec": _spec_json(schema), "a": [x.to_json() for x in a],
            "b": [x.to_json() for x in bset], "m": m.to_json(), "same": same, "in": isin,
            "type_in": tin.to_json() if tin else None, "set_from": [x.to_json() for x in sf]}
    return Case(coq=term, desc=desc, schema=info.schema_term(),
                kind=kind, nontrivial=len(a) >= 1)


def compile_case(schema, info, kind):
    desc = {"kind": kind, "marks_spec": _spec_json(schema),
            "excluded": {k: [e.name for e in v.excluded] for k, v in schema.marks.items()},
            "mark_set": {k: (None if v.mark_set is None else [m.name for m in v.mark_set])
                         for k, v in schema.nodes.items()}}
    return Case(coq="CCompile @S@", desc=desc,
                schema=info.schema_term(), kind=kind)


def random_set(rng, schema, n):
    cur = Mark.none
    for _ in range(n):
        cur = rand_mark(rng, schema).add_to_set(cur)
    return cur


def exhaustive_matrix_schemas():
    """all exclusion relations over three mark types (512 matrices)"""
    names = ["m0", "m1", "m2"]
    subsets = [[n for n, bit in zip(names, bits) if bit] for bits in itertools.product([0, 1], repeat=3)]
    for combo in itertools.product(subsets, repeat=3):
        specs = {n: {"excludes": " ".join(sub)} for n, sub in zip(names, combo)}
        yield make_schema(specs, "m0 m2")


def generate(rng: random.Random, tier: str):
    quick = tier == "quick"
    # 1. exhaustive exclusion matrices over 3 types x add-sequences (all 512 matrices in both tiers)
    schemas = list(exhaustive_matrix_schemas())
    for sc in schemas:
        info = SchemaInfo(sc)
        ms = [sc.marks[n].create() for n in sc.marks]
        if quick:
            seqs = list(itertools.permutations(ms, 3)) + [tuple(rng.choice(ms) for _ in range(4)) for _ in range(2)]
        else:
            seqs = [s for L in range(1, 5) for s in itertools.product(ms, repeat=L)]
        for seq in seqs:
            yield ops_case(rng, sc, info, [("add", m) for m in seq], "exhaustive-3types-adds")
        yield compile_case(sc, info, "compile-3types")
    # 2. random configurations (groups, "_", "", attrs) and mixed operation sequences
    for _ in range(250 if quick else 4000):
        sc, _specs = try_schema(rng, rng.randint(1, 4))
        info = SchemaInfo(sc)
        yield compile_case(sc, info, "compile-random")
        for _ in range(2):
            ops = []
            for _ in range(rng.randint(1, 7)):
                r = rng.random()
                if r < 0.65:
                    ops.append(("add", rand_mark(rng, sc)))
                elif r < 0.85:
                    ops.append(("remove", rand_mark(rng, sc)))
                else:
                    ops.append(("rtype", sc.marks[rng.choice(list(sc.marks))]))
            yield ops_case(rng, sc, info, ops, "random-ops")
        st = random_set(rng, sc, rng.randint(0, 5))
        yield allowed_case(rng, sc, info, st, "allowed-marks")
        # a set given in arbitrary (non-canonical) order exercises the copy logic of allowed_marks directly
        shuffled = [rand_mark(rng, sc) for _ in range(rng.randint(0, 4))]
        yield allowed_case(rng, sc, info, shuffled, "allowed-marks-arbitrary-list")
        a = random_set(rng, sc, rng.randint(0, 4))
        bset = a if rng.random() < 0.3 else random_set(rng, sc, rng.randint(0, 4))
        if rng.random() < 0.3:
            bset = list(a)
        yield query_case(rng, sc, info, shuffled if rng.random() < 0.5 else a, bset, rand_mark(rng, sc), "queries")


def rebuild(desc):
    spec = desc["marks_spec"]
    sc = Schema({"nodes": spec["nodes"], "marks": spec["marks"]})
    info = SchemaInfo(sc)
    mk = lambda j: sc.mark_from_json(j)
    k = desc["kind"].replace("corpus:", "")
    if "ops" in desc:
        ops = [(o[0], sc.marks[o[1]] if o[0] == "rtype" else mk(o[1])) for o in desc["ops"]]
        return ops_case(None, sc, info, ops, k)
    if "allowed" in desc:
        return allowed_case(None, sc, info, [mk(j) for j in desc["set"]], k)
    if "same" in desc:
        return query_case(None, sc, info, [mk(j) for j in desc["a"]], [mk(j) for j in desc["b"]], mk(desc["m"]), k)
    return compile_case(sc, info, k)


def classify(case):
    return None
