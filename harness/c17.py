"""C17 — concurrent edits to separate parts of a document commute after rebasing."""
from __future__ import annotations

import random

import gen
import steps as S
from common import Case, b, opt
from prosemirror.model import Fragment, Node, Slice
from prosemirror.transform import (AddMarkStep, RemoveMarkStep, ReplaceAroundStep, ReplaceStep, Transform)
from prosemirror.transform.transform import TransformError

ID = "C17"
CORR_MODULE = "Corr.C17"
LEVEL = "proof"
SHARD = 80


def touched(st):
    """outer extent of the positions a step refers to"""
    if hasattr(st, "from_"):
        return st.from_, st.to
    if hasattr(st, "pos"):
        return st.pos, st.pos + 1
    return None


def touched_parts(st):
    """the parts of the document a step touches: a replace-around step preserves its gap untouched"""
    if isinstance(st, ReplaceAroundStep):
        return [(st.from_, st.gap_from), (st.gap_to, st.to)]
    t = touched(st)
    return [t] if t else []


def parts_separated(sa, sb):
    """every touched part of one step is at least one untouched token away from every part of the other"""
    return all(pa[1] < pb[0] or pb[1] < pa[0] for pa in touched_parts(sa) for pb in touched_parts(sb))


def one_step(rng, g, doc, docs, lo, hi):
    """a single step produced by a high-level operation whose arguments lie in [lo, hi]"""
    ps = [p for p in S.boundary_positions(doc) if lo <= p <= hi]
    if not ps:
        return None
    for _ in range(8):
        tr = Transform(doc)
        a = rng.choice(ps)
        c = rng.choice(ps)
        a, c = min(a, c), max(a, c)
        op = rng.choice(["replace", "delete", "insert", "add_mark", "remove_mark", "split", "lift", "wrap",
                         "replace_range", "set_node_attribute", "add_node_mark", "join", "replace_with"])
        try:
            _do(rng, g, tr, docs, op, a, c)
        except (TransformError, ValueError):
            continue
        except Exception:  # noqa: BLE001
            continue
        if len(tr.steps) == 1:
            t = touched(tr.steps[0])
            if t is None or (lo <= t[0] and t[1] <= hi):
                return tr.steps[0]
    return None


def _do(rng, g, tr, docs, op, a, c):
    from prosemirror.transform import structure
    sc = g.schema
    doc = tr.doc
    if op == "replace":
        tr.replace(a, c, g.slice_from(rng.choice(docs)))
    elif op == "replace_range":
        tr.replace_range(a, c, g.slice_from(rng.choice(docs)))
    elif op == "replace_with":
        tr.replace_with(a, c, sc.text("w", g.marks_for(sc.nodes["paragraph"])))
    elif op == "delete":
        tr.delete(a, c)
    elif op == "insert":
        tr.insert(a, sc.text("ins"))
    elif op == "add_mark":
        tr.add_mark(a, c, S.rand_mark(rng, sc))
    elif op == "remove_mark":
        tr.remove_mark(a, c, S.rand_mark(rng, sc))
    elif op == "split":
        if not structure.can_split(doc, a):
            raise TransformError("no")
        tr.split(a)
    elif op == "join":
        if not structure.can_join(doc, a):
            raise TransformError("no")
        tr.join(a)
    elif op == "lift":
        rg = doc.resolve(a).block_range(doc.resolve(c))
        tgt = rg and structure.lift_target(rg)
        if rg is None or tgt is None:
            raise TransformError("no")
        tr.lift(rg, tgt)
    elif op == "wrap":
        rg = doc.resolve(a).block_range(doc.resolve(c))
        names = [n for n, t in sc.nodes.items() if not t.is_leaf and not t.is_text and not t.inline_content]
        wr = rg and structure.find_wrapping(rg, sc.nodes[rng.choice(names)])
        if not wr:
            raise TransformError("no")
        tr.wrap(rg, wr)
    elif op == "set_block_type":
        names = [n for n, t in sc.nodes.items() if t.is_textblock]
        ty = sc.nodes[rng.choice(names)]
        tr.set_block_type(a, c, ty, g.attrs_for(ty))
    elif op == "set_node_attribute":
        pn = [(p, n) for p, n in S.all_positions_with_nodes(doc) if n.type.attrs and a <= p <= c]
        if not pn:
            raise TransformError("no")
        p, n = rng.choice(pn)
        an = rng.choice(list(n.type.attrs))
        tr.set_node_attribute(p, an, rng.choice([1, 2, 3]) if an in ("level", "order") else "v")
    elif op == "add_node_mark":
        pn = [(p, n) for p, n in S.all_positions_with_nodes(doc) if not n.is_text and a <= p <= c]
        if not pn:
            raise TransformError("no")
        tr.add_node_mark(rng.choice(pn)[0], S.rand_mark(rng, sc))


def commute_case(fam, doc, sa, sb, kind):
    info = S.info_for(fam)
    a = S.Applied(info, doc, sa)
    bb = S.Applied(info, doc, sb)
    ta, tb = touched(sa), touched(sb)
    separated = parts_separated(sa, sb)

    def rebased(st, over):
        try:
            r = st.map(over.get_map())
        except Exception:  # noqa: BLE001
            return None
        return r if (r is None or S.positions_ok(r)) else None
    a2 = rebased(sa, sb)
    b2 = rebased(sb, sa)

    def second(first: S.Applied, st):
        if first.res_doc is None or st is None:
            return "None", None
        d, tag = S.sresult(lambda: st.apply(first.res_doc))
        return f"(Some {S.sresult_term(info, d, tag)})", list(tag)
    ab_t, ab = second(a, b2)
    ba_t, ba = second(bb, a2)
    coq = (f"CCommute @S@ {info.node(doc)} {a.term()} {bb.term()} {opt(a2, lambda x: S.step_term(info, x))} "
           f"{opt(b2, lambda x: S.step_term(info, x))} {ab_t} {ba_t} {b(separated)}")
    desc = {"case": "commute", "family": fam, "doc": doc.to_json(), "a": a.desc(), "b": bb.desc(),
            "a_rebased": S.step_desc(a2) if a2 is not None else None, "b_rebased": S.step_desc(b2) if b2 is not None else None,
            "ab": ab, "ba": ba, "separated": separated, "kind": kind}
    both = a.tag[0] == "ok" and bb.tag[0] == "ok"
    return Case(coq=coq, desc=desc, schema=info.schema_term(),
                kind=f"{kind}/{type(sa).__name__}+{type(sb).__name__}" + ("" if both else "/not-both-apply"),
                nontrivial=both and separated)


def generate(rng: random.Random, tier: str):
    quick = tier == "quick"
    for fam in gen.FAMILY:
        g, docs = S.family_docs(rng, fam, 12 if quick else 150)
        for doc in docs:
            n = doc.content.size
            if n < 6:
                continue
            for _ in range(12 if quick else 50):
                mid = rng.randint(2, n - 2)
                sa = one_step(rng, g, doc, docs, 0, mid - 1)
                sb = one_step(rng, g, doc, docs, mid + 1, n)
                if sa is None or sb is None:
                    continue
                ta, tb = touched(sa), touched(sb)
                if ta and tb and not (ta[1] < tb[0]):
                    continue
                if rng.random() < 0.5:
                    sa, sb = sb, sa
                yield commute_case(fam, doc, sa, sb, "separated-ops")
            # an edit strictly inside the preserved gap of a wrap / lift / retype step
            for _ in range(6 if quick else 25):
                tr = Transform(doc)
                try:
                    _do(rng, g, tr, docs, rng.choice(["wrap", "lift", "set_block_type"]), *S.rand_range(rng, doc))
                except Exception:  # noqa: BLE001
                    continue
                if len(tr.steps) != 1 or not isinstance(tr.steps[0], ReplaceAroundStep):
                    continue
                sa = tr.steps[0]
                if sa.gap_to - sa.gap_from < 3:
                    continue
                sb = one_step(rng, g, doc, docs, sa.gap_from + 1, sa.gap_to - 1)
                if sb is None or not parts_separated(sa, sb):
                    continue
                # a step whose slice is open on a side (split, open paste) re-opens ancestors: it touches the very
                # open/close tokens the outer step replaces, so it is not "separated" from it (DESIGN.md, C17)
                if isinstance(sb, ReplaceAroundStep) or (isinstance(sb, ReplaceStep) and (sb.slice.open_start or sb.slice.open_end)):
                    continue
                if rng.random() < 0.5:
                    yield commute_case(fam, doc, sa, sb, "inside-gap")
                else:
                    yield commute_case(fam, doc, sb, sa, "inside-gap")


    # a wrap in TWO wrappers (bullet_list > list_item: the step's map has two ranges of new size 2) followed closely
    # by an edit just behind the wrapped range - the window in which the second range of the map decides where the
    # other step lands; and node-level steps (attribute / node mark) on the node right behind it
    from prosemirror.transform import AttrStep, AddNodeMarkStep, find_wrapping
    for fam in ("list", "blockmarks"):
        g, docs = S.family_docs(rng, fam, 4 if quick else 40)
        sc = gen.family(fam)
        for doc in docs:
            for _ in range(10 if quick else 40):
                ps = S.boundary_positions(doc)
                a, c = sorted((rng.choice(ps), rng.choice(ps)))
                try:
                    rg = doc.resolve(a).block_range(doc.resolve(c))
                    wr = find_wrapping(rg, sc.nodes[rng.choice(["bullet_list", "ordered_list", "blockquote"])]) if rg else None
                except Exception:  # noqa: BLE001
                    continue
                if not wr:
                    continue
                tr = Transform(doc)
                try:
                    tr.wrap(rg, wr)
                except Exception:  # noqa: BLE001
                    continue
                sa = tr.steps[0]
                end = sa.to
                n = doc.content.size
                cands = []
                for p in range(end + 1, min(n, end + 4) + 1):
                    cands.append(ReplaceStep(p, p, Slice(Fragment.from_(sc.text("q")), 0, 0)))
                    try:
                        nd = doc.node_at(p)
                    except Exception:  # noqa: BLE001
                        nd = None
                    if nd is not None and not nd.is_text:
                        if "level" in nd.type.attrs:
                            cands.append(AttrStep(p, "level", 2))
                        cands.append(AddNodeMarkStep(p, S.rand_mark(rng, sc)))
                for sb in cands:
                    if rng.random() < 0.6 and parts_separated(sa, sb):
                        yield commute_case(fam, doc, sa, sb, "behind-double-wrap")


    # pairs that are NOT separated (overlapping, nested, touching): nothing is claimed about them, but Step.map - whether
    # the rebased step is dropped, and where it lands - must still be what the model computes (deleted flags of both
    # ends, gaps falling outside a shrunken range)
    for fam in ("list", "blockmarks"):
        g, docs = S.family_docs(rng, fam, 5 if quick else 50)
        for doc in docs:
            n = doc.content.size
            if n < 4:
                continue
            for _ in range(12 if quick else 40):
                lo = rng.randint(0, n - 2)
                hi = rng.randint(lo + 1, min(n, lo + 8))
                sa = one_step(rng, g, doc, docs, lo, hi)
                sb = one_step(rng, g, doc, docs, max(0, lo - 2), min(n, hi + 2))
                if sa is None or sb is None:
                    continue
                yield commute_case(fam, doc, sa, sb, "overlapping")

    # touching pairs: the second step inserts, deletes or replaces exactly AT one of the positions the first step refers
    # to (from, to, gap_from, gap_to, pos) - where the association side each Step.map passes to the mapping decides
    # whether the position moves. Nothing is claimed about the results; Step.map must be what the model computes, in both
    # directions.
    for fam in ("list", "blockmarks"):
        g, docs = S.family_docs(rng, fam, 5 if quick else 40)
        sc = gen.family(fam)
        ins = Slice(Fragment.from_(sc.text("xy")), 0, 0)
        for doc in docs:
            n = doc.content.size
            if n < 4:
                continue
            for _ in range(6 if quick else 20):
                lo = rng.randint(0, n - 2)
                hi = rng.randint(lo + 1, min(n, lo + 10))
                sa = one_step(rng, g, doc, docs, lo, hi)
                if sa is None:
                    continue
                pts = sorted({getattr(sa, k) for k in ("from_", "to", "gap_from", "gap_to", "pos") if hasattr(sa, k)})
                for p_ in pts:
                    k = rng.randint(1, 3)
                    cands = [ReplaceStep(p_, p_, ins)]
                    if p_ - k >= 0:
                        cands.append(ReplaceStep(p_ - k, p_, Slice.empty))
                    if p_ + k <= n:
                        cands.append(ReplaceStep(p_, p_ + k, Slice.empty))
                    if p_ - 1 >= 0 and p_ + 1 <= n:
                        cands.append(ReplaceStep(p_ - 1, p_ + 1, ins))
                    for sb in rng.sample(cands, min(2, len(cands))):
                        yield commute_case(fam, doc, sa, sb, "touching")


def rebuild(desc):
    sc = gen.family(desc["family"])
    doc = Node.from_json(sc, desc["doc"])
    return commute_case(desc["family"], doc, S.step_from_desc(sc, desc["a"]["step"]),
                        S.step_from_desc(sc, desc["b"]["step"]), desc.get("kind", "replay"))


def _joins(doc, sd):
    """a replace whose replaced range crosses a node boundary joins nodes: its validity depends on content
    arbitrarily far to the right, and it can move inline content into a parent with different mark rules"""
    if sd["type"] not in ("ReplaceStep", "ReplaceAroundStep"):
        return False
    try:
        f, t = doc.resolve(sd["from_"]), doc.resolve(sd["to"])
    except ValueError:
        return False
    if sd["type"] == "ReplaceAroundStep":
        return True
    return not f.same_parent(t) or f.depth != t.depth


def _reparents(sc, doc, sd):
    """a replace step after which some untouched inline content sits in a parent of another type (split or join
    with retyping: the content's mark rules change although the step does not touch it)"""
    if sd["type"] not in ("ReplaceStep", "ReplaceAroundStep"):
        return False
    try:
        st = S.step_from_desc(sc, sd)
        res = st.apply(doc)
        if res.failed:
            return False
        mp = st.get_map()
        for p in range(doc.content.size + 1):
            if sd["from_"] <= p <= sd["to"]:
                continue
            r = doc.resolve(p)
            if not r.parent.inline_content:
                continue
            r2 = res.doc.resolve(mp.map(p, 1))
            if r2.parent.type.name != r.parent.type.name:
                return True
    except Exception:  # noqa: BLE001
        return False
    return False


def _ok_order_result(sc, doc, d):
    """the document produced by the order of application that succeeded (None if neither or both did)"""
    ab, ba = d["ab"][0] == "ok", d["ba"][0] == "ok"
    if ab == ba:
        return None
    first, second = (d["a"]["step"], d["b_rebased"]) if ab else (d["b"]["step"], d["a_rebased"])
    if not isinstance(second, dict):
        return None
    try:
        r1 = S.step_from_desc(sc, first).apply(doc)
        r2 = S.step_from_desc(sc, second).apply(r1.doc)
        return r2.doc
    except Exception:  # noqa: BLE001
        return None


def classify(case):
    d = case.desc
    if d.get("case") != "commute" or not d["separated"]:
        return None
    sc = gen.family(d["family"])
    doc = Node.from_json(sc, d["doc"])
    sa, sb = d["a"]["step"], d["b"]["step"]
    ja, jb = _joins(doc, sa), _joins(doc, sb)
    kinds = {sa["type"], sb["type"]}
    marky = kinds & {"AddMarkStep", "RemoveMarkStep"}
    if (ja or jb) and marky:
        return "C17-join-vs-mark-context"
    if marky and (_reparents(sc, doc, sa) or _reparents(sc, doc, sb)):
        return "C17-join-vs-mark-context"
    replacey = {"ReplaceStep", "ReplaceAroundStep"}
    ab, ba = d["ab"], d["ba"]
    # both orders are refused with the same content error: the two edits are individually fine but together
    # violate a count constraint of a common ancestor (no divergence: neither order yields a document)
    if sa["type"] in replacey and sb["type"] in replacey and ab and ba and ab[0] == "fail" and ba[0] == "fail" \
            and ab[1] == ba[1] and str(ab[1]).startswith("Invalid content for node"):
        return "C17-both-orders-refused"
    # an edit inside the gap of a replace-around step whose closed wrapper is not validated against the gap
    # content (root cause C01-replace-around-closed-wrapper): one order silently yields an invalid document
    for x in (sa, sb):
        if x["type"] == "ReplaceAroundStep" and x["slice"]["content"] and x["slice"]["openStart"] == 0 \
                and x["slice"]["openEnd"] == 0:
            fin = _ok_order_result(sc, doc, d)
            if fin is not None:
                try:
                    fin.check()
                except Exception:  # noqa: BLE001
                    return "C17-gap-edit-vs-unvalidated-wrapper"
    if ja or jb:
        return "C17-joining-replace"
    return None
