"""C09 — positions resolve, index and traverse consistently in UTF-16 units (resolvedpos.py, fragment.py, node.py)."""
from __future__ import annotations

import random

import gen
from c02 import info_for
from common import Case, N, b, lst, nat, opt
from pm import err_class
from prosemirror.model import Node

ID = "C09"
CORR_MODULE = "Corr.C09"
LEVEL = "proof"
SHARD = 150


def u16(s: str):
    bs = s.encode("utf-16-le", "surrogatepass")
    return [int.from_bytes(bs[i:i + 2], "little") for i in range(0, len(bs), 2)]


def resolve_case(fam, doc: Node, p: int):
    info = info_for(fam)
    try:
        r = doc.resolve(p)
        levels = []
        for d in range(r.depth + 1):
            n = r.node(d)

            def tryv(f):
                try:
                    return f()
                except ValueError:
                    return None
            levels.append("(OL %s %s %s %s %s %s %s %s %s %s)" % (
                info.ty(n.type), nat(n.node_size), nat(n.child_count), nat(r.index(d)), nat(r.start(d)), nat(r.end(d)),
                opt(tryv(lambda: r.before(d)), nat), opt(tryv(lambda: r.after(d)), nat), nat(r.index_after(d)),
                nat(r.pos_at_index(r.index(d), d))))
        term = "(Ok (OR %s %s %s %s %s %s))" % (
            lst(levels), nat(r.parent_offset), nat(r.text_offset), opt(r.node_after, info.node),
            opt(r.node_before, info.node), info.marks(r.marks()))
        kind = "resolve/ok"
    except Exception as e:  # noqa: BLE001
        term = f"(Err {err_class(e)})"
        kind = "resolve/" + type(e).__name__
    return Case(coq=f"CResolve @S@ {info.node(doc)} {nat(p)} {term}",
                desc={"op": "resolve", "family": fam, "doc": doc.to_json(), "p": p, "obs": term},
                schema=info.schema_term(), kind=kind, key=("resolve", fam, str(doc), p))


def pair_case(fam, doc, p, q):
    info = info_for(fam)
    try:
        rp, rq = doc.resolve(p), doc.resolve(q)
    except ValueError:
        return None
    shared = rp.shared_depth(q)
    br = rp.block_range(rq)
    brt = "None" if br is None else "(Some (%s, %s, %s, %s, %s))" % (
        nat(br.depth), nat(br.start), nat(br.end), nat(br.start_index), nat(br.end_index))
    across = rp.marks_across(rq)
    sp = rp.same_parent(rq)
    coq = (f"CPair @S@ {info.node(doc)} {nat(p)} {nat(q)} {nat(shared)} {brt} "
           f"{opt(across, info.marks)} {b(sp)}")
    return Case(coq=coq, desc={"op": "pair", "family": fam, "doc": doc.to_json(), "p": p, "q": q,
                               "obs": [shared, brt, None if across is None else [m.to_json() for m in across], sp]},
                schema=info.schema_term(), kind="pair", key=("pair", fam, str(doc), p, q))


def nodeat_case(fam, doc, p):
    info = info_for(fam)

    def res(f, pr):
        try:
            return f"(Ok {pr(f())})"
        except Exception as e:  # noqa: BLE001
            return f"(Err {err_class(e)})"
    tri = lambda d: f"({opt(d['node'], info.node)}, {nat(d['index'])}, {nat(d['offset'])})"
    t1 = res(lambda: doc.node_at(p), lambda n: opt(n, info.node))
    t2 = res(lambda: doc.child_after(p), tri)
    t3 = res(lambda: doc.child_before(p), tri)
    return Case(coq=f"CNodeAt @S@ {info.node(doc)} {nat(p)} {t1} {t2} {t3}",
                desc={"op": "node_at", "family": fam, "doc": doc.to_json(), "p": p, "obs": [t1, t2, t3]},
                schema=info.schema_term(), kind="node_at", key=("node_at", fam, str(doc), p))


def between_case(rng, fam, doc, a, c):
    info = info_for(fam)
    sc = gen.family(fam)
    prune = sc.nodes[rng.choice([n for n in info.node_names if n != "text"])]
    vis, pruned = [], []

    def rec(out, stop_ty):
        def f(node, pos, parent, index):
            out.append("(OV %s %s %s %s %s)" % (info.ty(node.type), nat(pos), nat(index),
                                                opt(parent, lambda x: info.ty(x.type)), nat(node.node_size)))
            return False if (stop_ty is not None and node.type.name == stop_ty.name) else None
        return f
    doc.nodes_between(a, c, rec(vis, None))
    doc.nodes_between(a, c, rec(pruned, prune))
    names = list(sc.marks)
    mt = sc.marks[rng.choice(names)]
    m = mt.create({k: "foo" for k, at in mt.attrs.items() if not at.has_default} or None)
    hm = doc.range_has_mark(a, c, m)
    ht = doc.range_has_mark(a, c, mt)
    sep, leaf = rng.choice([("", ""), ("", ""), ("\n", ""), ("|", "*"), ("", "\U0001F600")])
    text = doc.text_between(a, c, sep, leaf)
    coq = (f"CBetween @S@ {info.node(doc)} {nat(a)} {nat(c)} {info.ty(prune)} {lst(vis)} {lst(pruned)} "
           f"{info.mark(m)} {b(hm)} {b(ht)} {lst(map(N, u16(sep)))} {lst(map(N, u16(leaf)))} {lst(map(N, u16(text)))}")
    return Case(coq=coq, desc={"op": "between", "family": fam, "doc": doc.to_json(), "from": a, "to": c,
                               "prune": prune.name, "mark": m.to_json(), "sep": sep, "leaf": leaf,
                               "obs": {"visits": len(vis), "pruned": len(pruned), "has_mark": hm, "has_type": ht,
                                       "text": text}},
                schema=info.schema_term(), kind="between", key=("between", fam, str(doc), a, c, sep, leaf),
                nontrivial=c > a)


def generate(rng: random.Random, tier: str):
    quick = tier == "quick"
    ndocs = 8 if quick else 120
    for fam in gen.FAMILY:
        g = gen.DocGen(gen.family(fam), rng)
        docs = [g.doc(rng.randint(2, 5)) for _ in range(ndocs)]
        docs = [d for d in docs if d.content.size <= 50] or docs[:1]
        for doc in docs:
            n = doc.content.size
            ps = list(range(n + 1)) if (not quick or n <= 14) else sorted(rng.sample(range(n + 1), 14))
            for p in ps:
                yield resolve_case(fam, doc, p)
                yield nodeat_case(fam, doc, p)
            pairs = [(p, q) for p in range(n + 1) for q in range(n + 1)]
            for p, q in rng.sample(pairs, min(len(pairs), 10 if quick else 60)):
                c = pair_case(fam, doc, p, q)
                if c:
                    yield c
            rngs = [(a, c) for a in range(n + 1) for c in range(a, n + 1)]
            for a, c in rng.sample(rngs, min(len(rngs), 8 if quick else 50)):
                try:
                    yield between_case(rng, fam, doc, a, c)
                except UnicodeDecodeError:
                    continue


    # positions beyond the end (appended stream): resolve must refuse them (ValueError), like the model's resolve
    for fam in gen.FAMILY:
        g = gen.DocGen(gen.family(fam), rng)
        for _ in range(3 if quick else 30):
            doc = g.doc(rng.randint(1, 3))
            n = doc.content.size
            for p in (n + 1, n + 2, n + rng.randint(3, 40)):
                yield resolve_case(fam, doc, p)


def rebuild(desc):
    fam = desc["family"]
    doc = Node.from_json(gen.family(fam), desc["doc"])
    op = desc["op"]
    if op == "resolve":
        return resolve_case(fam, doc, desc["p"])
    if op == "pair":
        return pair_case(fam, doc, desc["p"], desc["q"])
    if op == "node_at":
        return nodeat_case(fam, doc, desc["p"])
    raise NotImplementedError


def classify(case):
    return None
