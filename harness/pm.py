"""Bridge between prosemirror objects and the Gallina data model (coq/Model/Data.v):
schema dump (types, compiled automata, mark sets, exclusions) and value printers."""
from __future__ import annotations

from typing import Any

from common import b, coq_string, lst, nat, opt, z
from prosemirror.model import Fragment, Mark, Node, Schema, Slice
from prosemirror.model.content import ContentMatch


def cps(s: str) -> str:
    return lst(f"{ord(c)}%N" for c in s)


def js(v: Any) -> str:
    if v is None:
        return "JNull"
    if isinstance(v, bool):
        return f"(JBool {b(v)})"
    if isinstance(v, int):
        return f"(JInt {z(v)})"
    if isinstance(v, str):
        return f"(JStr {cps(v)})"
    if isinstance(v, (list, tuple)):
        return f"(JArr {lst(js(x) for x in v)})"
    if isinstance(v, dict):
        return f"(JObj {lst(f'({coq_string(k)}, {js(x)})' for k, x in v.items())})"
    raise TypeError(f"unsupported JSON value {v!r}")


def attrs_term(a) -> str:
    return lst(f"({coq_string(k)}, {js(v)})" for k, v in (a or {}).items())


class SchemaInfo:
    """Numbering of node types, mark types and content-match states of one schema."""

    def __init__(self, schema: Schema, name: str = "S0"):
        self.schema = schema
        self.name = name
        self.node_names = list(schema.nodes.keys())
        self.mark_names = list(schema.marks.keys())
        self.nidx = {n: i for i, n in enumerate(self.node_names)}
        self.midx = {n: i for i, n in enumerate(self.mark_names)}
        self.states: list[ContentMatch] = [ContentMatch.empty]
        self._sid = {id(ContentMatch.empty): 0}
        for n in self.node_names:
            self._walk(schema.nodes[n].content_match)

    def _walk(self, m: ContentMatch) -> None:
        if id(m) in self._sid:
            return
        work = [m]
        self._sid[id(m)] = len(self.states)
        self.states.append(m)
        i = 0
        while i < len(work):
            st = work[i]
            for e in st.next:
                if id(e.next) not in self._sid:
                    self._sid[id(e.next)] = len(self.states)
                    self.states.append(e.next)
                    work.append(e.next)
            i += 1

    def sid(self, m: ContentMatch | None) -> int | None:
        if m is None:
            return None
        if id(m) not in self._sid:
            self._walk(m)
        return self._sid[id(m)]

    # ---- printers
    def ty(self, t) -> str:
        return nat(self.nidx[t.name])

    def mty(self, t) -> str:
        return nat(self.midx[t.name])

    def mark(self, m: Mark) -> str:
        return f"(MK {nat(self.midx[m.type.name])} {attrs_term(m.attrs)})"

    def marks(self, ms) -> str:
        return lst(self.mark(m) for m in ms)

    def node(self, n: Node) -> str:
        if n.is_text:
            return f"(Text {cps(n.text)} {self.marks(n.marks)})"
        return (f"(Elem {nat(self.nidx[n.type.name])} {attrs_term(n.attrs)} {self.marks(n.marks)} "
                f"{self.frag(n.content)})")

    def frag(self, f: Fragment) -> str:
        return lst(self.node(c) for c in f.content)

    def slice(self, s: Slice) -> str:
        return f"(SL {self.frag(s.content)} {nat(s.open_start)} {nat(s.open_end)})"

    def attrdecls(self, attrs) -> str:
        return lst(f"(AD {coq_string(k)} {('(Some ' + js(a.default) + ')') if a.has_default else 'None'})"
                   for k, a in attrs.items())

    def schema_term(self) -> str:
        sc = self.schema
        nts = []
        for n in self.node_names:
            t = sc.nodes[n]
            spec = t.spec
            ms = None if t.mark_set is None else [self.midx[m.name] for m in t.mark_set]
            mspec = spec.get("marks")
            mspec_t = "None" if mspec is None else ("(Some [])" if mspec == "" else
                                                     f"(Some {lst(coq_string(x) for x in mspec.split(' '))})")
            nts.append(
                "(NT %s %s %s %s %s %s %s %s %s %s %s %s %s)" % (
                    coq_string(n), self.attrdecls(t.attrs), nat(self.sid(t.content_match)),
                    b(t.is_inline), b(t.inline_content),
                    "None" if ms is None else f"(Some {lst(map(nat, ms))})",
                    lst(coq_string(g) for g in t.groups), b(bool(spec.get("isolating"))),
                    b(bool(spec.get("atom"))),
                    b(bool(spec.get("definingAsContext") or spec.get("defining"))),
                    b(bool(spec.get("definingForContent") or spec.get("defining"))),
                    b(bool(spec.get("code"))), mspec_t))
        mts = []
        for n in self.mark_names:
            t = sc.marks[n]
            excl = t.spec.get("excludes")
            excl_t = "None" if excl is None else ("(Some [])" if excl == "" else
                                                  f"(Some {lst(coq_string(x) for x in excl.split(' '))})")
            grp = t.spec.get("group")
            mts.append("(MT %s %s %s %s %s %s)" % (
                coq_string(n), self.attrdecls(t.attrs), lst(nat(self.midx[e.name]) for e in t.excluded),
                b(t.spec.get("inclusive") is False), lst(coq_string(g) for g in (grp.split(" ") if grp else [])),
                excl_t))
        sts = []
        for st in self.states:
            sts.append(f"(CS {b(st.valid_end)} "
                       f"{lst(f'({nat(self.nidx[e.type.name])}, {nat(self.sid(e.next))})' for e in st.next)})")
        return ("{| s_nodes := %s; s_marks := %s; s_states := %s; s_top := %s; s_text := %s |}"
                % (lst(nts), lst(mts), lst(sts), nat(self.nidx[sc.top_node_type.name]), nat(self.nidx["text"])))

    def definition(self) -> str:
        # states may have been extended while printing values, so emit last-minute
        return f"Definition {self.name} : schema := {self.schema_term()}.\n"


def err_class(e: BaseException) -> str:
    """exception -> small enum shared with the model's error type"""
    from prosemirror.model import ReplaceError
    from prosemirror.transform.transform import TransformError
    if isinstance(e, ReplaceError):
        return "ErrReplace"
    if isinstance(e, TransformError):
        return "ErrTransform"
    if isinstance(e, (UnicodeError,)):
        return "ErrValue"
    if isinstance(e, ValueError):
        return "ErrValue"
    if isinstance(e, SyntaxError):
        return "ErrSyntax"
    if isinstance(e, RecursionError):
        return "ErrInternal"
    return "ErrInternal"
