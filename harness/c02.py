"""C02 — replace is a splice of the flat token sequence (model/replace.py, fragment.py, node.py, resolvedpos.py)."""
from __future__ import annotations

import random

import gen
from common import Case, b, nat, z
from pm import SchemaInfo, err_class
from prosemirror.model import Fragment, Node, Slice

ID = "C02"
CORR_MODULE = "Corr.C02"
LEVEL = "proof"
SHARD = 200

_INFO: dict[str, SchemaInfo] = {}


def info_for(fam: str) -> SchemaInfo:
    if fam not in _INFO:
        _INFO[fam] = SchemaInfo(gen.family(fam))
    return _INFO[fam]


def res_term(f, printer):
    try:
        v = f()
        return f"(Ok {printer(v)})", ("ok", v)
    except Exception as e:  # noqa: BLE001
        cls = err_class(e)
        return f"(Err {cls})", ("err", cls, f"{type(e).__name__}: {e}"[:200])


def slice_case(fam, doc, a, bb):
    info = info_for(fam)
    term, obs = res_term(lambda: doc.slice(a, bb), info.slice)
    size = obs[1].size if obs[0] == "ok" else 0
    coq = f"CSlice @S@ {info.node(doc)} {nat(a)} {nat(bb)} {term} {z(size)}"
    desc = {"op": "slice", "family": fam, "doc": doc.to_json(), "from": a, "to": bb,
            "obs": gen.slice_to_json(obs[1]) if obs[0] == "ok" else list(obs)}
    return Case(coq=coq, desc=desc, schema=info.schema_term(), kind=f"slice/{fam}", nontrivial=a != bb)


def replace_case(fam, doc, a, bb, sl, valid_inputs, same):
    info = info_for(fam)
    term, obs = res_term(lambda: doc.replace(a, bb, sl), info.node)
    coq = (f"CReplace @S@ {info.node(doc)} {nat(a)} {nat(bb)} {info.slice(sl)} {b(valid_inputs)} {b(same)} {term}")
    desc = {"op": "replace", "family": fam, "doc": doc.to_json(), "from": a, "to": bb,
            "slice": gen.slice_to_json(sl), "valid_inputs": valid_inputs, "same": same,
            "obs": obs[1].to_json() if obs[0] == "ok" else list(obs)}
    return Case(coq=coq, desc=desc, schema=info.schema_term(),
                kind=f"replace/{fam}/" + ("ok" if obs[0] == "ok" else obs[1]),
                nontrivial=obs[0] == "ok" and (a != bb or sl.content.size > 0))


def fragcut_case(fam, frag, a, bb):
    info = info_for(fam)
    term, obs = res_term(lambda: frag.cut(a, bb), info.frag)
    coq = f"CFragCut @S@ {info.frag(frag)} {nat(a)} {nat(bb)} {term}"
    desc = {"op": "fragcut", "family": fam, "frag": [c.to_json() for c in frag.content], "from": a, "to": bb,
            "obs": [c.to_json() for c in obs[1].content] if obs[0] == "ok" else list(obs)}
    return Case(coq=coq, desc=desc, schema=info.schema_term(), kind=f"fragcut/{fam}")


def nodecut_case(fam, n, a, bb):
    info = info_for(fam)
    term, obs = res_term(lambda: n.cut(a, bb), info.node)
    coq = f"CNodeCut @S@ {info.node(n)} {nat(a)} {nat(bb)} {term}"
    desc = {"op": "nodecut", "family": fam, "node": n.to_json(), "from": a, "to": bb,
            "obs": obs[1].to_json() if obs[0] == "ok" else list(obs)}
    return Case(coq=coq, desc=desc, schema=info.schema_term(), kind=f"nodecut/{fam}")


def generate(rng: random.Random, tier: str):
    quick = tier == "quick"
    ndocs = 14 if quick else 250
    for fam in gen.FAMILY:
        g = gen.DocGen(gen.family(fam), rng)
        docs = [g.doc(rng.randint(2, 5)) for _ in range(ndocs)]
        # keep documents small enough for all-pairs work
        docs = [d for d in docs if d.content.size <= 60] or docs[:1]
        for doc in docs:
            n = doc.content.size
            pairs = [(a, c) for a in range(n + 1) for c in range(a, n + 1)]
            sample = pairs if len(pairs) <= (12 if quick else 60) else rng.sample(pairs, 12 if quick else 60)
            for a, c in sample:
                yield slice_case(fam, doc, a, c)
            # re-insert a slice where it was cut
            for a, c in (sample[:4] if quick else sample[:15]):
                try:
                    sl = doc.slice(a, c)
                except ValueError:
                    continue
                yield replace_case(fam, doc, a, c, sl, True, True)
            # slices cut from other documents, inserted at every kind of range
            for _ in range(10 if quick else 50):
                other = rng.choice(docs)
                sl = g.slice_from(other)
                a, c = rng.choice(pairs)
                yield replace_case(fam, doc, a, c, sl, True, False)
            # slices whose open depths are made to match the insertion point more often
            for _ in range(6 if quick else 30):
                a, c = rng.choice(pairs)
                try:
                    da, dc = doc.resolve(a).depth, doc.resolve(c).depth
                except ValueError:
                    continue
                other = rng.choice(docs)
                m = other.content.size
                cands = []
                for _ in range(30):
                    x = rng.randint(0, m)
                    y = rng.randint(x, m)
                    try:
                        s2 = other.slice(x, y)
                    except ValueError:
                        continue
                    if da - s2.open_start == dc - s2.open_end and s2.open_start <= da:
                        cands.append(s2)
                if cands:
                    yield replace_case(fam, doc, a, c, rng.choice(cands), True, False)
            # deletions
            for a, c in (rng.sample(pairs, min(len(pairs), 5 if quick else 25))):
                yield replace_case(fam, doc, a, c, Slice.empty, True, False)
            # cuts
            for a, c in (rng.sample(pairs, min(len(pairs), 4 if quick else 20))):
                yield fragcut_case(fam, doc.content, a, c)
                yield nodecut_case(fam, doc, a, c)


    # slices whose open depths are DEEPER than their content's spine on one or both sides (appended stream): Slice() checks
    # nothing, Node.replace must refuse them (ReplaceError) or splice them correctly - never return something else or die
    # with an internal error (seeded change C02-7 dropped the end-side depth check of prepare_slice_for_replace)
    for fam in gen.FAMILY:
        g = gen.DocGen(gen.family(fam), rng)
        docs = [g.doc(rng.randint(2, 5)) for _ in range(6 if quick else 80)]
        docs = [d for d in docs if d.content.size <= 60] or docs[:1]
        for doc in docs:
            n = doc.content.size
            pairs = [(a, c) for a in range(n + 1) for c in range(a, n + 1)]
            depth = {}
            for p in range(n + 1):
                try:
                    depth[p] = doc.resolve(p).depth
                except ValueError:
                    pass
            for _ in range(10 if quick else 40):
                other = rng.choice(docs)
                m = other.content.size
                x = rng.randint(0, m)
                y = rng.randint(x, m)
                try:
                    s2 = other.slice(x, y)
                except ValueError:
                    continue
                side = rng.choice(["end", "end", "start", "both"])
                ks = rng.randint(1, 2) if side in ("start", "both") else 0
                ke = rng.randint(1, 2) if side in ("end", "both") else 0
                content = s2.content
                if rng.random() < 0.3:      # an empty node as the whole content: any open depth > 1 is too deep
                    kinds = [t for t in gen.family(fam).nodes.values() if not t.is_leaf and not t.is_text]
                    made = rng.choice(kinds).create_and_fill()
                    if made is not None:
                        content, s2 = Fragment.from_(made), Slice(Fragment.from_(made), 0, 0)
                s3 = Slice(content, s2.open_start + ks, s2.open_end + ke)
                fit = [(a, c) for a, c in pairs if a in depth and c in depth
                       and depth[a] - s3.open_start == depth[c] - s3.open_end and s3.open_start <= depth[a]]
                a, c = rng.choice(fit) if fit and rng.random() < 0.8 else rng.choice(pairs)
                yield replace_case(fam, doc, a, c, s3, False, False)


    # a schema with an inline atom that has content (appended stream): sizes, slices and replaces around and inside it
    for fam in gen.ATOMIC_FAMILY:
        sc = gen.family(fam)
        g = gen.DocGen(sc, rng)
        docs = [g.doc(rng.randint(2, 4)) for _ in range(30 if quick else 300)]
        docs = [d for d in docs if d.content.size <= 50 and "footnote" in str(d)][: (6 if quick else 60)]
        fixed = sc.node("doc", None, [sc.node("paragraph", None, [sc.text("ab"), sc.node("footnote", None, [sc.text("xy")]), sc.text("cd")])])
        for doc in [fixed] + docs:
            n = doc.content.size
            pairs = [(a, c) for a in range(n + 1) for c in range(a, n + 1)]
            for a, c in (pairs if len(pairs) <= 20 else rng.sample(pairs, min(len(pairs), 20 if quick else 40))):
                yield slice_case(fam, doc, a, c)
            for a, c in rng.sample(pairs, min(len(pairs), 8 if quick else 20)):
                try:
                    sl = doc.slice(a, c)
                except ValueError:
                    continue
                yield replace_case(fam, doc, a, c, sl, True, True)
                yield replace_case(fam, doc, a, c, g.slice_from(rng.choice([fixed] + docs)), True, False)


def rebuild(desc):
    fam = desc["family"]
    sc = gen.family(fam)
    op = desc["op"]
    if op == "slice":
        return slice_case(fam, Node.from_json(sc, desc["doc"]), desc["from"], desc["to"])
    if op == "replace":
        return replace_case(fam, Node.from_json(sc, desc["doc"]), desc["from"], desc["to"],
                            gen.slice_from_json(sc, desc["slice"]), desc["valid_inputs"], desc["same"])
    if op == "fragcut":
        return fragcut_case(fam, Fragment.from_json(sc, desc["frag"]), desc["from"], desc["to"])
    return nodecut_case(fam, Node.from_json(sc, desc["node"]), desc["from"], desc["to"])


def classify(case):
    return None
