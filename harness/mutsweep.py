#!/usr/bin/env python3
"""Mutation sweep (development tool, not a registered check).

Generates token-level mutants of the library's core modules (comparison / arithmetic / boolean operators, small
integer constants, True/False), keeps those the repository's own 442 tests do not notice, and runs the quick checks
of the properties anchored in the mutated file against each survivor.  The survivors no check notices are either
equivalent mutants or gaps in the checks; the list is written to <out>/undetected.json for triage.

Everything happens in scratch copies of /repo under <out> (default /tmp/mut); /repo itself is never touched.
usage: mutsweep.py [--out DIR] [--workers N] [--max-survivors N] [--files a.py,b.py] [--seed N]
"""
import argparse
import io
import json
import os
import random
import shutil
import subprocess
import sys
import tokenize
from concurrent.futures import ThreadPoolExecutor

VERIF = os.path.dirname(os.path.dirname(os.path.abspath(__file__)))
REPO = "/repo"

FILES = {
    "prosemirror/transform/map.py": ["C08", "C03", "C17"],
    "prosemirror/transform/step.py": ["C01", "C04", "C05"],
    "prosemirror/transform/replace_step.py": ["C01", "C03", "C04", "C16", "C17", "C05"],
    "prosemirror/transform/mark_step.py": ["C13", "C16", "C04", "C17", "C05"],
    "prosemirror/transform/attr_step.py": ["C13", "C04", "C17", "C05"],
    "prosemirror/transform/doc_attr_step.py": ["C13", "C04", "C05"],
    "prosemirror/transform/structure.py": ["C12", "C18"],
    "prosemirror/transform/replace.py": ["C11", "C18", "C12"],
    "prosemirror/transform/transform.py": ["C11", "C12", "C13", "C18"],
    "prosemirror/model/content.py": ["C06", "C15", "C07"],
    "prosemirror/model/fragment.py": ["C02", "C09", "C20"],
    "prosemirror/model/node.py": ["C02", "C07", "C09"],
    "prosemirror/model/replace.py": ["C02", "C01"],
    "prosemirror/model/resolvedpos.py": ["C09", "C12"],
    "prosemirror/model/diff.py": ["C20"],
    "prosemirror/model/mark.py": ["C14", "C13"],
    "prosemirror/model/schema.py": ["C14", "C07", "C15", "C05"],
    "prosemirror/model/from_dom.py": ["C19"],
    "prosemirror/model/to_dom.py": ["C19"],
}

SWAP = {"<": ["<="], "<=": ["<"], ">": [">="], ">=": [">"], "==": ["!="], "!=": ["=="],
        "+": ["-"], "-": ["+"], "and": ["or"], "or": ["and"], "True": ["False"], "False": ["True"],
        "0": ["1"], "1": ["0", "2"], "2": ["1", "3"], "+=": ["-="], "-=": ["+="]}


def mutants_of(path):
    src = open(os.path.join(REPO, path)).read()
    lines = src.split("\n")
    out = []
    toks = list(tokenize.generate_tokens(io.StringIO(src).readline))
    depth_def = False
    for i, t in enumerate(toks):
        s = t.string
        if t.type not in (tokenize.OP, tokenize.NAME, tokenize.NUMBER) or s not in SWAP:
            continue
        line = lines[t.start[0] - 1]
        ls = line.strip()
        if ls.startswith(("import ", "from ", "def ", "class ", "@", "__slots__")) or ("->" in line and ls.startswith("def")):
            continue
        if ": int = " in line or "Literal[" in line or "TypedDict" in line or "cast(" in line and s in ("0", "1", "2"):
            pass
        if t.start[0] != t.end[0]:
            continue
        for new in SWAP[s]:
            ml = line[: t.start[1]] + new + line[t.end[1]:]
            out.append({"file": path, "line": t.start[0], "col": t.start[1], "old": s, "new": new,
                        "before": line.strip()[:120], "after": ml.strip()[:120], "_ml": ml})
    return out


def sh(cmd, cwd=None, env=None, timeout=600):
    try:
        p = subprocess.run(cmd, shell=True, cwd=cwd, env=env, capture_output=True, text=True, timeout=timeout)
        return p.returncode, p.stdout + p.stderr
    except subprocess.TimeoutExpired:
        return 124, "timeout"


class Worker:
    def __init__(self, out, k):
        self.dir = os.path.join(out, f"w{k}")
        self.out = os.path.join(out, f"o{k}")
        if os.path.exists(self.dir):
            shutil.rmtree(self.dir)
        shutil.copytree(REPO, self.dir, ignore=shutil.ignore_patterns(".git", "__pycache__", "*.pyc"))
        os.makedirs(self.out, exist_ok=True)

    def apply(self, m):
        p = os.path.join(self.dir, m["file"])
        self.orig = open(p).read()
        lines = self.orig.split("\n")
        lines[m["line"] - 1] = m["_ml"]
        open(p, "w").write("\n".join(lines))
        self.path = p

    def restore(self):
        open(self.path, "w").write(self.orig)

    def survives_tests(self, m):
        self.apply(m)
        try:
            env = dict(os.environ, PYTHONPATH=self.dir, PYTHONDONTWRITEBYTECODE="1")
            rc, out = sh("timeout -k 5 90 /venv/bin/python -m pytest -q -x -p no:cacheprovider 2>&1 | tail -2", cwd=self.dir, env=env, timeout=120)
            return " passed" in out and "failed" not in out and "error" not in out.lower()
        finally:
            self.restore()

    def run_checks(self, m, props):
        self.apply(m)
        res = {}
        try:
            env = dict(os.environ, VERIF_REPO=self.dir, VERIF_OUT=self.out, VERIF_NO_BUILD="1", VERIF_JOBS="4",
                       PYTHONDONTWRITEBYTECODE="1")
            for pr in props:
                rc, out = sh(f"timeout -k 5 800 ./check {pr} --tier quick", cwd=VERIF, env=env, timeout=900)
                summ = [l for l in out.splitlines() if l.startswith(pr + " ")][-1:]
                res[pr] = {"exit": rc, "summary": summ[0][:160] if summ else out[-200:]}
                if rc == 1:
                    break          # caught: no need to ask the other checks
        finally:
            self.restore()
        return res


def main():
    ap = argparse.ArgumentParser()
    ap.add_argument("--out", default="/tmp/mut")
    ap.add_argument("--workers", type=int, default=6)
    ap.add_argument("--max-survivors", type=int, default=400)
    ap.add_argument("--files", default="")
    ap.add_argument("--seed", type=int, default=1)
    ap.add_argument("--exclude", default="", help="results.json of an earlier sweep: skip the mutants it already ran")
    ap.add_argument("--skip-files", default="", help="comma-separated path fragments to leave out (e.g. from_dom,to_dom)")
    a = ap.parse_args()
    os.makedirs(a.out, exist_ok=True)
    files = a.files.split(",") if a.files else list(FILES)
    rng = random.Random(a.seed)
    muts = []
    for f in files:
        muts += mutants_of(f)
    print(f"{len(muts)} mutants over {len(files)} files", flush=True)
    workers = [Worker(a.out, k) for k in range(a.workers)]
    free = list(workers)

    def with_worker(fn, *args):
        w = free.pop()
        try:
            return fn(w, *args)
        finally:
            free.append(w)

    # 1. the repository's own tests
    surv_path = os.path.join(a.out, "survivors.json")
    if os.path.exists(surv_path) and not a.files:
        survivors = json.load(open(surv_path))
        print(f"re-using {len(survivors)} survivors from {surv_path}", flush=True)
    else:
        with ThreadPoolExecutor(a.workers) as ex:
            flags = list(ex.map(lambda m: with_worker(Worker.survives_tests, m), muts))
        survivors = [m for m, ok in zip(muts, flags) if ok]
        json.dump(survivors, open(surv_path, "w"), indent=1)
        print(f"{len(survivors)} of {len(muts)} mutants pass the 442 tests", flush=True)
    if a.exclude:
        done = {(m["file"], m["line"], m["col"], m["new"]) for m in json.load(open(a.exclude))}
        survivors = [m for m in survivors if (m["file"], m["line"], m["col"], m["new"]) not in done]
        print(f"{len(survivors)} survivors not in {a.exclude}", flush=True)
    if a.skip_files:
        frags = a.skip_files.split(",")
        survivors = [m for m in survivors if not any(f in m["file"] for f in frags)]
        print(f"{len(survivors)} after leaving out {frags}", flush=True)
    if len(survivors) > a.max_survivors:
        rng.shuffle(survivors)
        survivors = survivors[: a.max_survivors]
        print(f"sampling {len(survivors)} of them", flush=True)

    # 2. the checks
    results = []

    def one(m):
        r = with_worker(Worker.run_checks, m, FILES[m["file"]])
        caught = [p for p, v in r.items() if v["exit"] == 1]
        rec = {k: v for k, v in m.items() if k != "_ml"}
        rec["checks"] = r
        rec["caught_by"] = caught
        print(("CAUGHT " if caught else "MISSED ") + f"{m['file']}:{m['line']} {m['old']}->{m['new']}  | {m['after'][:90]}", flush=True)
        return rec
    with ThreadPoolExecutor(a.workers) as ex:
        results = list(ex.map(one, survivors))
    json.dump(results, open(os.path.join(a.out, "results.json"), "w"), indent=1)
    und = [r for r in results if not r["caught_by"]]
    json.dump(und, open(os.path.join(a.out, "undetected.json"), "w"), indent=1)
    print(f"caught {len(results) - len(und)} / {len(results)}; undetected listed in {a.out}/undetected.json")
    for w in workers:
        shutil.rmtree(w.dir, ignore_errors=True)


if __name__ == "__main__":
    sys.exit(main())
