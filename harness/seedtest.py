#!/usr/bin/env python3
"""Confirm a seeded change (from an independent sub-agent) and run the registered check against it.

usage: seedtest.py <PROP> <agent-out-dir> <scratch-worktree> [--tier quick] [--props C01,C03]

For each patchK.diff in the agent's output directory:
  1. in the scratch worktree: apply, run the repository's test suite (must pass), run demoK.py (must fail);
     revert, run demoK.py (must pass);
  2. apply to /repo, run ./check for the property (and any extra properties), undo straight afterwards;
  3. if confirmed, store under /verif/seeded/<PROP>-K/ (patch.diff, demo.py, meta.json).
"""
import glob
import json
import os
import shutil
import subprocess
import sys

VERIF = os.path.dirname(os.path.dirname(os.path.abspath(__file__)))


def sh(cmd, cwd=None, env=None, timeout=1800):
    p = subprocess.run(cmd, shell=True, cwd=cwd, env=env, capture_output=True, text=True, timeout=timeout)
    return p.returncode, (p.stdout + p.stderr)


def main():
    prop, outdir, wt = sys.argv[1:4]
    tier = "quick"
    extra = []
    args = sys.argv[4:]
    if "--tier" in args:
        tier = args[args.index("--tier") + 1]
    if "--props" in args:
        extra = args[args.index("--props") + 1].split(",")
    results = []
    for patch in sorted(glob.glob(os.path.join(outdir, "patch*.diff"))):
        k = os.path.basename(patch)[5:-5]
        demo = os.path.join(outdir, f"demo{k}.py")
        meta = {"property": prop, "patch": os.path.basename(patch), "ran": []}
        sh("git checkout -- .", cwd=wt)
        rc, out = sh(f"git apply {patch}", cwd=wt)
        if rc != 0:
            rc, out = sh(f"git apply -3 {patch}", cwd=wt)
        meta["applies"] = rc == 0
        if rc != 0:
            meta["note"] = out[-300:]
            results.append(meta)
            continue
        env = dict(os.environ, PYTHONPATH=wt)
        rc_t, out_t = sh("/venv/bin/python -m pytest -q -p no:cacheprovider -x 2>&1 | tail -3", cwd=wt, env=env)
        meta["suite_passes_with_change"] = " passed" in out_t and "failed" not in out_t
        meta["suite_tail"] = out_t.strip().splitlines()[-1:] if out_t.strip() else []
        rc_d, out_d = sh(f"/venv/bin/python {demo}", cwd=wt, env=env, timeout=300)
        meta["demo_fails_with_change"] = rc_d != 0
        sh("git checkout -- .", cwd=wt)
        rc_c, out_c = sh(f"/venv/bin/python {demo}", cwd=wt, env=env, timeout=300)
        meta["demo_passes_without_change"] = rc_c == 0
        meta["ran"] += [f"cd {wt} && git apply {os.path.basename(patch)} && pytest (442 tests) && python demo{k}.py (exit {rc_d})",
                        f"git checkout -- . && python demo{k}.py (exit {rc_c})"]
        confirmed = (meta["suite_passes_with_change"] and meta["demo_fails_with_change"] and meta["demo_passes_without_change"])
        meta["confirmed"] = confirmed
        # run the registered checks against /repo with the change applied
        det = {}
        rc, out = sh(f"git apply {patch}", cwd="/repo")
        if rc != 0:
            rc, out = sh(f"git apply -3 {patch}", cwd="/repo")
        if rc == 0:
            try:
                for pr in [prop] + extra:
                    rcx, outx = sh(f"./check {pr} --tier {tier}", cwd=VERIF, timeout=3600)
                    lines = [l for l in outx.splitlines() if l.startswith("VIOLATION")]
                    det[pr] = {"exit": rcx, "violations": len(lines), "first": lines[:2],
                               "summary": [l for l in outx.splitlines() if l.startswith(pr + " ")][-1:]}
            finally:
                sh("git checkout -- . && git reset -q", cwd="/repo")
        else:
            det["error"] = "patch does not apply to /repo: " + out[-200:]
            sh("git checkout -- .", cwd="/repo")
        meta["checks"] = det
        meta["detected_by"] = [p for p, v in det.items() if isinstance(v, dict) and v.get("exit") == 1]
        notes = os.path.join(outdir, "notes.md")
        if os.path.exists(notes):
            meta["needs_to_manifest"] = open(notes).read()[:3000]
        if confirmed:
            dst = os.path.join(VERIF, "seeded", f"{prop}-{k}")
            os.makedirs(dst, exist_ok=True)
            shutil.copy(patch, os.path.join(dst, "patch.diff"))
            shutil.copy(demo, os.path.join(dst, "demo.py"))
            json.dump(meta, open(os.path.join(dst, "meta.json"), "w"), indent=1)
        results.append(meta)
        print(json.dumps({k2: v for k2, v in meta.items() if k2 not in ("needs_to_manifest",)}, indent=1))
    st, _ = sh("git status --short", cwd="/repo")
    return 0


if __name__ == "__main__":
    sys.exit(main())
