#!/usr/bin/env python3
"""Re-runs every kept seeded change against the current checks (quick tier of its property) and rewrites
the 'checks' / 'detected_by' fields of its meta.json.  usage: seed_rerun.py [ids...]"""
import glob
import json
import os
import subprocess
import sys

VERIF = os.path.dirname(os.path.dirname(os.path.abspath(__file__)))


def sh(cmd, cwd=None, timeout=3600):
    p = subprocess.run(cmd, shell=True, cwd=cwd, capture_output=True, text=True, timeout=timeout)
    return p.returncode, p.stdout + p.stderr


def main():
    ids = sys.argv[1:] or sorted(os.path.basename(d) for d in glob.glob(os.path.join(VERIF, "seeded", "C*-*")))
    missed = []
    for sid in ids:
        d = os.path.join(VERIF, "seeded", sid)
        meta = json.load(open(os.path.join(d, "meta.json")))
        prop = meta["property"]
        rc, out = sh(f"git apply {d}/patch.diff", cwd="/repo")
        if rc != 0:
            print(sid, "patch does not apply", out[-200:])
            continue
        try:
            rcx, outx = sh(f"./check {prop} --tier quick", cwd=VERIF)
        finally:
            sh("git checkout -- . && git reset -q", cwd="/repo")
        lines = [l for l in outx.splitlines() if l.startswith("VIOLATION")]
        summ = [l for l in outx.splitlines() if l.startswith(prop + " ")][-1:]
        meta.setdefault("checks", {})[prop] = {"exit": rcx, "violations": len(lines), "first": lines[:2], "summary": summ}
        det = sorted(set([p for p in meta.get("detected_by", []) if p != prop] + ([prop] if rcx == 1 else [])))
        meta["detected_by"] = det
        json.dump(meta, open(os.path.join(d, "meta.json"), "w"), indent=1)
        print(sid, "exit", rcx, summ[0] if summ else "", flush=True)
        if rcx != 1:
            missed.append(sid)
    print("MISSED:", missed)


if __name__ == "__main__":
    main()
